;;; ATOM md/tuples-named
!named = !{!0, !1, !2}
!named2 = !{}
!a.b = !{!3}
!0 = !{}
!1 = !{!"string", i32 42, float 1.0, i8* null, !0}
!2 = distinct !{!2, !1, null}
!3 = !{!{!{}}, !{!"inline", !0}}
;;; ATOM md/named-merge
!x = !{!0}
!y = !{!1}
!x = !{!1, !2}
!0 = !{i32 0}
!1 = !{i32 1}
!2 = !{i32 2}
;;; ATOM md/sparse-forward-cycle
!root = !{!100}
!100 = !{!7, !3}
!7 = distinct !{!100, !7}
!3 = !{!"leaf"}
!50 = distinct !{}
;;; ATOM md/attachments
@g = global i32 0, !a !0, !b !1
declare !a !0 void @d()
define void @f(i32 %x) !a !0 !b !1 {
entry:
  %y = add i32 %x, 1, !a !0
  %z = load i32, i32* @g, align 4, !tbaa !2, !range !3, !a !{!"inline"}
  store i32 %z, i32* @g, !nontemporal !4
  call void @d(), !a !0, !b !1
  br label %next, !llvm.loop !5
next:
  ret void, !a !0
}
!0 = !{}
!1 = !{!"x"}
!2 = !{!7, !7, i64 0}
!7 = !{!"int", !8, i64 0}
!8 = !{!"tbaa root"}
!3 = !{i32 0, i32 10}
!4 = !{i32 1}
!5 = distinct !{!5, !6}
!6 = !{!"llvm.loop.unroll.disable"}
;;; ATOM md/values-in-calls
declare void @llvm.dbg.value(metadata, metadata, metadata)
declare void @llvm.dbg.declare(metadata, metadata, metadata)
declare i1 @llvm.type.test(i8*, metadata)
declare double @llvm.experimental.constrained.fadd.f64(double, double, metadata, metadata)
define void @f(i32 %x, i8* %p) !dbg !4 {
  %a = alloca i32
  call void @llvm.dbg.value(metadata i32 %x, metadata !9, metadata !DIExpression()), !dbg !10
  call void @llvm.dbg.declare(metadata i32* %a, metadata !11, metadata !DIExpression(DW_OP_plus_uconst, 8, DW_OP_deref)), !dbg !10
  call void @llvm.dbg.value(metadata !DIArgList(i32 %x, i8* %p), metadata !9, metadata !DIExpression(DW_OP_LLVM_arg, 0, DW_OP_LLVM_arg, 1, DW_OP_plus)), !dbg !10
  call void @llvm.dbg.value(metadata i32 7, metadata !9, metadata !DIExpression(DW_OP_LLVM_fragment, 0, 16)), !dbg !10
  call void @llvm.dbg.value(metadata i32 undef, metadata !9, metadata !DIExpression(DW_OP_constu, 3, DW_OP_stack_value)), !dbg !10
  %t1 = call i1 @llvm.type.test(i8* %p, metadata !{})
  %t2 = call i1 @llvm.type.test(i8* %p, metadata !3)
  %t3 = call i1 @llvm.type.test(i8* %p, metadata !"str")
  %t4 = call i1 @llvm.type.test(i8* %p, metadata !{!"a", !3})
  %t5 = call double @llvm.experimental.constrained.fadd.f64(double 1.0, double 2.0, metadata !"round.dynamic", metadata !"fpexcept.strict") strictfp
  ret void, !dbg !10
}
!llvm.dbg.cu = !{!0}
!llvm.module.flags = !{!3}
!0 = distinct !DICompileUnit(language: DW_LANG_C, file: !1, emissionKind: FullDebug)
!1 = !DIFile(filename: "a.c", directory: "/d")
!3 = !{i32 2, !"Debug Info Version", i32 3}
!4 = distinct !DISubprogram(name: "f", scope: !1, file: !1, line: 1, type: !5, scopeLine: 1, spFlags: DISPFlagDefinition, unit: !0, retainedNodes: !8)
!5 = !DISubroutineType(types: !6)
!6 = !{null, !7}
!7 = !DIBasicType(name: "int", size: 32, encoding: DW_ATE_signed)
!8 = !{!9, !11}
!9 = !DILocalVariable(name: "x", arg: 1, scope: !4, file: !1, line: 1, type: !7)
!10 = !DILocation(line: 2, column: 3, scope: !4)
!11 = !DILocalVariable(name: "a", scope: !4, file: !1, line: 2, type: !7)
;;; ATOM md/di-compileunit-file
!llvm.dbg.cu = !{!0, !5, !6}
!0 = distinct !DICompileUnit(language: DW_LANG_C_plus_plus_14, file: !1, producer: "clang version 14", isOptimized: true, flags: "-O2 -g", runtimeVersion: 2, splitDebugFilename: "a.dwo", emissionKind: LineTablesOnly, enums: !2, retainedTypes: !2, globals: !2, imports: !2, macros: !2, dwoId: 42, splitDebugInlining: false, debugInfoForProfiling: true, nameTableKind: GNU, rangesBaseAddress: true, sysroot: "/sys", sdk: "MacOSX.sdk")
!1 = !DIFile(filename: "a.cpp", directory: "/dir", checksumkind: CSK_MD5, checksum: "000102030405060708090a0b0c0d0e0f", source: "int x;\0A")
!2 = !{}
!3 = !DIFile(filename: "b.c", directory: "")
!4 = !DIFile(filename: "c.c", directory: "/x", checksumkind: CSK_SHA1, checksum: "0123456789012345678901234567890123456789")
!5 = distinct !DICompileUnit(language: DW_LANG_Rust, file: !3, emissionKind: NoDebug, nameTableKind: None)
!6 = distinct !DICompileUnit(language: DW_LANG_Fortran95, file: !4, isOptimized: false, emissionKind: DebugDirectivesOnly, splitDebugInlining: true)
!llvm.module.flags = !{!8}
!8 = !{i32 2, !"Debug Info Version", i32 3}
;;; ATOM md/di-types
!llvm.dbg.cu = !{!0}
!0 = distinct !DICompileUnit(language: DW_LANG_C99, file: !1, emissionKind: FullDebug, retainedTypes: !2)
!1 = !DIFile(filename: "a.c", directory: "/")
!2 = !{!3, !4, !5, !6, !10, !12, !13, !14, !15, !20, !21}
!llvm.module.flags = !{!38}
!38 = !{i32 2, !"Debug Info Version", i32 3}
!3 = !DIBasicType(name: "int", size: 32, align: 32, encoding: DW_ATE_signed, flags: DIFlagBigEndian)
!4 = !DIBasicType(tag: DW_TAG_unspecified_type, name: "decltype(nullptr)")
!5 = !DIBasicType()
!6 = !DIDerivedType(tag: DW_TAG_pointer_type, baseType: !3, size: 64, align: 64, dwarfAddressSpace: 1)
!7 = !DIDerivedType(tag: DW_TAG_member, name: "m", scope: !10, file: !1, line: 3, baseType: !3, size: 32, offset: 32, flags: DIFlagPublic | DIFlagBitField, extraData: i64 0)
!8 = !DIDerivedType(tag: DW_TAG_typedef, name: "T", file: !1, line: 1, baseType: !3, annotations: !25)
!9 = !{!7}
!10 = distinct !DICompositeType(tag: DW_TAG_structure_type, name: "S", scope: !1, file: !1, line: 2, baseType: !3, size: 64, align: 32, offset: 0, flags: DIFlagTypePassByValue, elements: !9, runtimeLang: DW_LANG_C99, vtableHolder: !10, templateParams: !11, identifier: "_ZTS1S")
!11 = !{!16, !17, !18}
!12 = !DICompositeType(tag: DW_TAG_array_type, baseType: !3, size: 96, elements: !19, dataLocation: !DIExpression(DW_OP_push_object_address, DW_OP_deref), associated: !DIExpression(DW_OP_constu, 1), allocated: !DIExpression(DW_OP_constu, 2), rank: 3)
!13 = !DICompositeType(tag: DW_TAG_enumeration_type, name: "E", file: !1, line: 5, baseType: !3, size: 32, flags: DIFlagEnumClass, elements: !23)
!14 = !DISubroutineType(types: !39)
!15 = !DISubroutineType(flags: DIFlagLValueReference, cc: DW_CC_BORLAND_msfastcall, types: !39)
!16 = !DITemplateTypeParameter(name: "T", type: !3)
!17 = !DITemplateValueParameter(name: "V", type: !3, value: i32 7)
!18 = !DITemplateValueParameter(tag: DW_TAG_GNU_template_template_param, name: "TT", value: !"tmpl")
!19 = !{!26, !27, !28, !29}
!20 = !DIStringType(name: "str", size: 32)
!21 = !DIStringType(name: "str2", stringLength: !30, stringLengthExpression: !DIExpression(DW_OP_push_object_address), size: 32, align: 8, encoding: DW_ATE_ASCII)
!22 = !DITemplateTypeParameter(name: "D", type: !3, defaulted: true)
!23 = !{!31, !32, !33}
!24 = !DITemplateValueParameter(name: "DV", type: !3, defaulted: true, value: i32 1)
!25 = !{!34}
!26 = !DISubrange(count: 3)
!27 = !DISubrange(count: 4, lowerBound: 1)
!28 = !DISubrange(count: !30)
!29 = !DISubrange(lowerBound: 0, upperBound: 9, stride: 2)
!30 = !DILocalVariable(name: "n", scope: !35, file: !1, line: 1, type: !3)
!31 = !DIEnumerator(name: "A", value: 0)
!32 = !DIEnumerator(name: "B", value: 18446744073709551615, isUnsigned: true)
!33 = !DIEnumerator(name: "C", value: -5)
!34 = !{!"btf_decl_tag", !"x"}
!35 = distinct !DISubprogram(name: "f", file: !1, line: 1, type: !14, spFlags: DISPFlagDefinition, unit: !0)
!39 = !{null, !3, !6}
!md = !{!8, !36, !22, !24, !7}
!36 = !DISubrange(lowerBound: !DIExpression(DW_OP_constu, 1), upperBound: !30, stride: !DIExpression(DW_OP_constu, 4))
;;; ATOM md/di-subprogram-scopes
define void @f() !dbg !4 {
  ret void, !dbg !20
}
declare !dbg !10 void @decl()
!llvm.dbg.cu = !{!0}
!llvm.module.flags = !{!3}
!0 = distinct !DICompileUnit(language: DW_LANG_C_plus_plus, file: !1, emissionKind: FullDebug)
!1 = !DIFile(filename: "a.cpp", directory: "/")
!2 = !{}
!3 = !{i32 2, !"Debug Info Version", i32 3}
!4 = distinct !DISubprogram(name: "f", linkageName: "_Z1fv", scope: !11, file: !1, line: 10, type: !5, scopeLine: 11, containingType: !6, virtualIndex: 2, thisAdjustment: 8, flags: DIFlagPrototyped | DIFlagAllCallsDescribed, spFlags: DISPFlagDefinition | DISPFlagOptimized | DISPFlagVirtual, unit: !0, templateParams: !2, declaration: !7, retainedNodes: !2, thrownTypes: !2, annotations: !2)
!5 = !DISubroutineType(types: !2)
!6 = !DICompositeType(tag: DW_TAG_class_type, name: "C", file: !1, line: 1, size: 8, elements: !2, identifier: "_ZTS1C")
!7 = !DISubprogram(name: "f", linkageName: "_Z1fv", scope: !6, file: !1, line: 2, type: !5, scopeLine: 2, flags: DIFlagPrototyped, spFlags: DISPFlagPureVirtual)
!8 = !DISubprogram(name: "old", scope: !1, file: !1, line: 1, type: !5, isLocal: true, isDefinition: false, isOptimized: true)
!9 = !DISubprogram(scope: null, spFlags: 0)
!10 = !DISubprogram(name: "decl", scope: !1, file: !1, line: 3, type: !5, flags: DIFlagPrototyped, spFlags: DISPFlagLocalToUnit)
!11 = !DINamespace(name: "ns", scope: !12)
!12 = !DINamespace(scope: null, exportSymbols: true)
!13 = distinct !DILexicalBlock(scope: !4, file: !1, line: 12, column: 3)
!14 = !DILexicalBlockFile(scope: !13, file: !1, discriminator: 4)
!15 = !DIModule(scope: !0, name: "Mod", configMacros: "-DX", includePath: "/inc", apinotes: "notes", file: !1, line: 4, isDecl: true)
!16 = !DICommonBlock(scope: !4, declaration: !18, name: "blk", file: !1, line: 5)
!17 = !DILabel(scope: !4, name: "lbl", file: !1, line: 13)
!18 = !DIGlobalVariable(name: "gv", linkageName: "_gv", scope: !0, file: !1, line: 6, type: !19, isLocal: true, isDefinition: false, declaration: !21, templateParams: !2, align: 64, annotations: !2)
!19 = !DIBasicType(name: "int", size: 32, encoding: DW_ATE_signed)
!20 = !DILocation(line: 12, column: 5, scope: !14, inlinedAt: !22, isImplicitCode: true)
!21 = !DIDerivedType(tag: DW_TAG_member, name: "gv", scope: !6, file: !1, line: 6, baseType: !19, flags: DIFlagStaticMember)
!22 = distinct !DILocation(line: 20, scope: !4)
!23 = !DIGlobalVariableExpression(var: !18, expr: !DIExpression(DW_OP_constu, 1, DW_OP_stack_value))
!24 = !DILocalVariable(name: "v", arg: 2, scope: !13, file: !1, line: 12, type: !19, flags: DIFlagArtificial | DIFlagObjectPointer, align: 32, annotations: !2)
!25 = !DIImportedEntity(tag: DW_TAG_imported_module, scope: !0, entity: !11, file: !1, line: 7, name: "alias", elements: !2)
!26 = !DIImportedEntity(tag: DW_TAG_imported_declaration, scope: !4, entity: !18)
!27 = !DIMacro(type: DW_MACINFO_define, line: 1, name: "M", value: "1")
!28 = !DIMacro(type: DW_MACINFO_undef, name: "U")
!29 = !DIMacroFile(type: DW_MACINFO_start_file, line: 2, file: !1, nodes: !30)
!30 = !{!27, !28}
!31 = !DIObjCProperty(name: "prop", file: !1, line: 8, setter: "setProp:", getter: "prop", attributes: 7, type: !19)
!32 = !GenericDINode(tag: DW_TAG_entry_point, header: "hdr", operands: {!19, null, !"s"})
!33 = !GenericDINode(tag: 65535)
!34 = !DILocation(line: 0, scope: !4)
!all = !{!8, !9, !15, !16, !17, !23, !24, !25, !26, !29, !31, !32, !33, !34}
;;; ATOM md/di-flags
!0 = !DIBasicType(name: "a", flags: DIFlagPrivate)
!1 = !DIBasicType(name: "a", flags: DIFlagProtected)
!2 = !DIBasicType(name: "a", flags: DIFlagPublic)
!3 = !DIBasicType(name: "a", flags: DIFlagFwdDecl | DIFlagAppleBlock | DIFlagReservedBit4 | DIFlagVirtual | DIFlagArtificial | DIFlagExplicit | DIFlagPrototyped)
!4 = !DIBasicType(name: "a", flags: DIFlagObjcClassComplete | DIFlagObjectPointer | DIFlagVector | DIFlagStaticMember | DIFlagLValueReference | DIFlagRValueReference)
!5 = !DIBasicType(name: "a", flags: DIFlagExportSymbols)
!6 = !DIBasicType(name: "a", flags: DIFlagSingleInheritance)
!7 = !DIBasicType(name: "a", flags: DIFlagMultipleInheritance)
!8 = !DIBasicType(name: "a", flags: DIFlagVirtualInheritance)
!9 = !DIBasicType(name: "a", flags: DIFlagIntroducedVirtual | DIFlagBitField | DIFlagNoReturn | DIFlagTypePassByValue | DIFlagTypePassByReference | DIFlagEnumClass | DIFlagThunk | DIFlagNonTrivial | DIFlagBigEndian | DIFlagLittleEndian | DIFlagAllCallsDescribed)
!11 = !DISubprogram(name: "s", spFlags: 0)
!12 = !DISubprogram(name: "s", spFlags: DISPFlagVirtual)
!13 = !DISubprogram(name: "s", spFlags: DISPFlagPureVirtual | DISPFlagLocalToUnit | DISPFlagOptimized | DISPFlagPure | DISPFlagElemental | DISPFlagRecursive | DISPFlagMainSubprogram | DISPFlagDeleted | DISPFlagObjCDirect)
!md = !{!0, !1, !2, !3, !4, !5, !6, !7, !8, !9, !11, !12, !13}
!llvm.module.flags = !{!14}
!14 = !{i32 2, !"Debug Info Version", i32 3}
;;; ATOM md/di-expression-ops
!0 = !DIExpression()
!1 = !DIExpression(DW_OP_deref)
!2 = !DIExpression(DW_OP_plus_uconst, 4, DW_OP_minus, DW_OP_mul, DW_OP_div, DW_OP_mod, DW_OP_or, DW_OP_and, DW_OP_xor, DW_OP_shl, DW_OP_shr, DW_OP_shra)
!3 = !DIExpression(DW_OP_LLVM_convert, 16, DW_ATE_signed, DW_OP_LLVM_convert, 32, DW_ATE_unsigned)
!4 = !DIExpression(DW_OP_LLVM_fragment, 8, 8)
!5 = !DIExpression(DW_OP_swap, DW_OP_xderef, DW_OP_dup, DW_OP_over, DW_OP_lit0, DW_OP_breg0, 1, DW_OP_bregx, 2, 3)
!6 = !DIExpression(DW_OP_LLVM_entry_value, 1, DW_OP_LLVM_tag_offset, 2, DW_OP_LLVM_implicit_pointer)
!7 = !DIExpression(DW_OP_constu, 18446744073709551615, DW_OP_consts, 5, DW_OP_stack_value)
!md = !{!0, !1, !2, !3, !4, !5, !6, !7}
!llvm.module.flags = !{!14}
!14 = !{i32 2, !"Debug Info Version", i32 3}
;;; ATOM md/di-file-sha256
!llvm.module.flags = !{!8}
!8 = !{i32 2, !"Debug Info Version", i32 3}
!7 = !DIFile(filename: "d.c", directory: "/x", checksumkind: CSK_SHA256, checksum: "0123456789012345678901234567890123456789012345678901234567890123")
!md = !{!7}
;;; ATOM md/di-expression-numbered-refs
@g = global i32 0, !dbg !0
@h = global i32 0, !dbg !9
@arr = global [4 x i32] zeroinitializer, !dbg !20

define void @f(i32 %x) !dbg !12 {
  call void @llvm.dbg.value(metadata i32 %x, metadata !15, metadata !8), !dbg !16
  call void @llvm.dbg.value(metadata i32 %x, metadata !15, metadata !DIExpression()), !dbg !16
  ret void, !dbg !16
}

declare void @llvm.dbg.value(metadata, metadata, metadata)

!llvm.dbg.cu = !{!2}
!llvm.module.flags = !{!10, !11}

!0 = !DIGlobalVariableExpression(var: !1, expr: !8)
!1 = distinct !DIGlobalVariable(name: "g", scope: !2, file: !3, line: 1, type: !7, isLocal: false, isDefinition: true)
!2 = distinct !DICompileUnit(language: DW_LANG_C99, file: !3, producer: "p", isOptimized: false, runtimeVersion: 0, emissionKind: FullDebug, enums: !4, globals: !5)
!3 = !DIFile(filename: "a.c", directory: "/")
!4 = !{}
!5 = !{!0, !9, !20}
!6 = distinct !DIGlobalVariable(name: "h", scope: !2, file: !3, line: 2, type: !7, isLocal: false, isDefinition: true)
!7 = !DIBasicType(name: "int", size: 32, encoding: DW_ATE_signed)
!8 = !DIExpression(DW_OP_plus_uconst, 4, DW_OP_stack_value)
!9 = !DIGlobalVariableExpression(var: !6, expr: !8)
!10 = !{i32 2, !"Dwarf Version", i32 4}
!11 = !{i32 2, !"Debug Info Version", i32 3}
!12 = distinct !DISubprogram(name: "f", scope: !3, file: !3, line: 3, type: !13, spFlags: DISPFlagDefinition, unit: !2, retainedNodes: !4)
!13 = !DISubroutineType(types: !14)
!14 = !{null, !7}
!15 = !DILocalVariable(name: "x", arg: 1, scope: !12, file: !3, line: 3, type: !7)
!16 = !DILocation(line: 3, column: 1, scope: !12)
!17 = !DIExpression(DW_OP_push_object_address, DW_OP_deref)
!18 = !DICompositeType(tag: DW_TAG_array_type, baseType: !7, size: 128, elements: !19, dataLocation: !17, associated: !17, allocated: !8, rank: !8)
!19 = !{!22}
!20 = !DIGlobalVariableExpression(var: !21, expr: !DIExpression())
!21 = distinct !DIGlobalVariable(name: "arr", scope: !2, file: !3, line: 4, type: !18, isLocal: false, isDefinition: true)
!22 = !DISubrange(lowerBound: !17, upperBound: !8, stride: !17)
;;; ATOM md/attachments-repeated-kinds
@vt = constant [2 x i8*] zeroinitializer, !type !0, !type !1, !foo !2
@g = global i32 0, !dbg !3, !dbg !5
declare !type !0 !type !1 void @d()
define void @f() !type !0 !type !1 !foo !2 {
  ret void
}
!llvm.module.flags = !{!6}
!llvm.dbg.cu = !{!7}
!0 = !{i64 0, !"typeid1"}
!1 = !{i64 8, !"typeid2"}
!2 = !{}
!3 = !DIGlobalVariableExpression(var: !4, expr: !DIExpression())
!4 = distinct !DIGlobalVariable(name: "g", scope: !7, file: !8, line: 1, type: !9, isLocal: false, isDefinition: true)
!5 = !DIGlobalVariableExpression(var: !4, expr: !DIExpression(DW_OP_plus_uconst, 4))
!6 = !{i32 2, !"Debug Info Version", i32 3}
!7 = distinct !DICompileUnit(language: DW_LANG_C99, file: !8, producer: "p", isOptimized: false, runtimeVersion: 0, emissionKind: FullDebug, globals: !10)
!8 = !DIFile(filename: "a.c", directory: "/")
!9 = !DIBasicType(name: "int", size: 32, encoding: DW_ATE_signed)
!10 = !{!3, !5}
;;; ATOM md/di-derived-dwarf-address-space-zero
!named = !{!0, !1}
!0 = !DIDerivedType(tag: DW_TAG_pointer_type, baseType: null, size: 64, dwarfAddressSpace: 0)
!1 = !DIDerivedType(tag: DW_TAG_pointer_type, baseType: null, size: 64, dwarfAddressSpace: 3)
;;; ATOM md/inline-specialized-nodes
@g = global [4 x i32] zeroinitializer, !dbg !0
!llvm.module.flags = !{!20}
!llvm.dbg.cu = !{!2}
!0 = !DIGlobalVariableExpression(var: !1, expr: !DIExpression())
!1 = distinct !DIGlobalVariable(name: "g", scope: !2, file: !3, line: 1, type: !5, isLocal: false, isDefinition: true)
!2 = distinct !DICompileUnit(language: DW_LANG_C99, file: !3, producer: "p", isOptimized: false, runtimeVersion: 0, emissionKind: FullDebug, globals: !4, enums: !{!7})
!3 = !DIFile(filename: "a.c", directory: "/")
!4 = !{!0}
!5 = !DICompositeType(tag: DW_TAG_array_type, baseType: !DIBasicType(name: "int", size: 32, encoding: DW_ATE_signed), size: 128, elements: !{!DISubrange(count: 4), !DISubrange(lowerBound: 1, upperBound: 3)})
!7 = !DICompositeType(tag: DW_TAG_enumeration_type, name: "E", file: !3, line: 2, baseType: !DIBasicType(name: "unsigned int", size: 32, encoding: DW_ATE_unsigned), size: 32, elements: !{!DIEnumerator(name: "A", value: 0, isUnsigned: true), !DIEnumerator(name: "B", value: 1, isUnsigned: true)})
!20 = !{i32 2, !"Debug Info Version", i32 3}
;;; ATOM md/names-with-leading-digits
@g = global i32 0, !\32nd !0, !\31 !1
define void @f() !\33d.x !0 {
  ret void, !\34\20th !1
}
!\31abc = !{!0}
!\39 = !{!1}
!\30x10 = !{!0, !1}
!0 = !{!"a"}
!1 = !{!"b"}
;;; ATOM md/distinct-empty-tuples
define void @f(i32* %p) {
  %v = load i32, i32* %p, !llvm.access.group !0
  store i32 %v, i32* %p, !llvm.access.group !1
  ret void
}
!named = !{!0, !1, !2, !3}
!0 = distinct !{}
!1 = distinct !{}
!2 = !{}
!3 = distinct !{!0, !1}
;;; ATOM md/diarglist-two-functions
declare void @llvm.dbg.value(metadata, metadata, metadata)
define void @f(i32 %a, i32 %b) {
  call void @llvm.dbg.value(metadata !DIArgList(i32 %a, i32 %b), metadata !5, metadata !DIExpression(DW_OP_LLVM_arg, 0, DW_OP_LLVM_arg, 1, DW_OP_plus)), !dbg !7
  ret void
}
define void @g(i32 %a, i32 %b) {
  call void @llvm.dbg.value(metadata !DIArgList(i32 %a, i32 %b), metadata !8, metadata !DIExpression(DW_OP_LLVM_arg, 0, DW_OP_LLVM_arg, 1, DW_OP_plus)), !dbg !9
  ret void
}
!llvm.module.flags = !{!0}
!llvm.dbg.cu = !{!1}
!0 = !{i32 2, !"Debug Info Version", i32 3}
!1 = distinct !DICompileUnit(language: DW_LANG_C99, file: !2, producer: "p", isOptimized: false, runtimeVersion: 0, emissionKind: FullDebug)
!2 = !DIFile(filename: "a.c", directory: "/")
!3 = !DISubroutineType(types: !{null})
!4 = distinct !DISubprogram(name: "f", scope: !2, file: !2, line: 1, type: !3, spFlags: DISPFlagDefinition, unit: !1)
!5 = !DILocalVariable(name: "x", scope: !4, file: !2, line: 1, type: !6)
!6 = !DIBasicType(name: "int", size: 32, encoding: DW_ATE_signed)
!7 = !DILocation(line: 1, scope: !4)
!10 = distinct !DISubprogram(name: "g", scope: !2, file: !2, line: 2, type: !3, spFlags: DISPFlagDefinition, unit: !1)
!8 = !DILocalVariable(name: "y", scope: !10, file: !2, line: 2, type: !6)
!9 = !DILocation(line: 2, scope: !10)
;;; ATOM md/di-enum-integers
!llvm.dbg.cu = !{!1}
!llvm.module.flags = !{!8}
!named = !{!0, !2, !3, !6}
!0 = !DIBasicType(name: "t", size: 32, encoding: 200)
!1 = distinct !DICompileUnit(language: 40000, file: !7, emissionKind: 2, nameTableKind: 1)
!2 = !DISubroutineType(cc: 1, types: !{})
!3 = !DISubprogram(name: "f", virtuality: 2, isDefinition: false)
!6 = !DIStringType(name: "s", encoding: 77)
!7 = !DIFile(filename: "a.c", directory: "/")
!8 = !{i32 2, !"Debug Info Version", i32 3}
;;; ATOM md/di-subprogram-distinct-declaration
!llvm.module.flags = !{!8}
!named = !{!0, !1, !2}
!0 = distinct !DISubprogram(name: "f", spFlags: 0)
!1 = distinct !DISubprogram(name: "g", isDefinition: false)
!2 = !DISubprogram(name: "h", spFlags: 0)
!8 = !{i32 2, !"Debug Info Version", i32 3}
;;; ATOM md/names-like-node-keywords
@g = global i32 0, !DIFile !0
!DILocation = !{!0}
!0 = !{}
;;; ATOM md/di-flag-integers
!llvm.module.flags = !{!8}
!n = !{!0, !1, !2, !4, !5}
!0 = !DIBasicType(name: "y", flags: 2097152)
!1 = !DISubprogram(name: "f", spFlags: 1024)
!2 = !DISubprogram(name: "g", spFlags: 4096)
!4 = !DIBasicType(name: "z", flags: DIFlagPublic | 2097152 | DIFlagVector)
!5 = !DISubprogram(name: "h", spFlags: DISPFlagLocalToUnit | 1024 | DISPFlagPure)
!8 = !{i32 2, !"Debug Info Version", i32 3}
;;; ATOM md/inline-specialized-attachments
@g = global i32 0, !dbg !DIGlobalVariableExpression(var: !5, expr: !DIExpression())
define void @f() !dbg !3 {
  ret void, !dbg !DILocation(line: 4, scope: !3)
}
define void @h() !dbg !6 {
  call void @f(), !dbg !DILocation(line: 9, column: 2, scope: !6), !x !{!"inline", !4}
  ret void, !dbg !DILocation(line: 10, scope: !6)
}
!llvm.module.flags = !{!8}
!llvm.dbg.cu = !{!1}
!0 = !{!"unrelated node number zero"}
!1 = distinct !DICompileUnit(language: DW_LANG_C99, file: !2, emissionKind: FullDebug, globals: !{})
!2 = !DIFile(filename: "a.c", directory: "/")
!3 = distinct !DISubprogram(name: "f", file: !2, line: 3, type: !7, spFlags: DISPFlagDefinition, unit: !1)
!4 = !{}
!5 = distinct !DIGlobalVariable(name: "g", scope: !1, file: !2, line: 1, type: !9, isLocal: false, isDefinition: true)
!6 = distinct !DISubprogram(name: "h", file: !2, line: 8, type: !7, spFlags: DISPFlagDefinition, unit: !1)
!7 = !DISubroutineType(types: !4)
!8 = !{i32 2, !"Debug Info Version", i32 3}
!9 = !DIBasicType(name: "int", size: 32, encoding: DW_ATE_signed)
;;; ATOM md/di-compileunit-imports-macros
!llvm.module.flags = !{!8}
!llvm.dbg.cu = !{!0}
!0 = distinct !DICompileUnit(language: DW_LANG_C_plus_plus, file: !1, emissionKind: FullDebug, enums: !2, retainedTypes: !9, globals: !2, imports: !3, macros: !5)
!1 = !DIFile(filename: "a.cpp", directory: "/")
!2 = !{}
!3 = !{!4}
!4 = !DIImportedEntity(tag: DW_TAG_imported_declaration, scope: !0, entity: !7, file: !1, line: 3)
!5 = !{!6}
!6 = !DIMacro(type: DW_MACINFO_define, line: 1, name: "M", value: "1")
!7 = !DIBasicType(name: "int", size: 32, encoding: DW_ATE_signed)
!8 = !{i32 2, !"Debug Info Version", i32 3}
!9 = !{!7}
;;; ATOM md/named-repeated-with-escaped-spellings
!foo = !{!0}
!\66oo = !{!1}
!f\6Fo = !{!2}
!foo = !{!0}
!bar\20x = !{!1}
!bar\20\78 = !{!2}
!0 = !{!"a"}
!1 = !{!"b"}
!2 = !{!"c"}
;;; ATOM md/distinct-specialized-nodes
!llvm.module.flags = !{!9}
!named = !{!0, !1, !2, !3, !4, !5, !6}
!0 = distinct !GenericDINode(tag: DW_TAG_member, header: "h", operands: {!1})
!1 = !GenericDINode(tag: DW_TAG_member, header: "k")
!2 = distinct !DIBasicType(name: "int", size: 32, encoding: DW_ATE_signed)
!3 = distinct !DIFile(filename: "a.c", directory: "/")
!4 = distinct !DIExpression(DW_OP_deref)
!5 = distinct !{!0, !2}
!6 = distinct !DISubrange(count: 4)
!9 = !{i32 2, !"Debug Info Version", i32 3}
;;; ATOM md/di-composite-runtime-lang-without-enumerator
!llvm.module.flags = !{!0}
!llvm.dbg.cu = !{!1}
!0 = !{i32 2, !"Debug Info Version", i32 3}
!1 = distinct !DICompileUnit(language: DW_LANG_C99, file: !2, emissionKind: FullDebug, retainedTypes: !3)
!2 = !DIFile(filename: "a.c", directory: "/")
!3 = !{!4, !5}
!4 = !DICompositeType(tag: DW_TAG_structure_type, name: "S", file: !2, size: 32, runtimeLang: 99)
!5 = !DICompositeType(tag: DW_TAG_structure_type, name: "T", file: !2, size: 32, runtimeLang: DW_LANG_ObjC)
;;; ATOM md/di-composite-vtable-holder-is-a-typedef
!llvm.module.flags = !{!0}
!llvm.dbg.cu = !{!1}
!0 = !{i32 2, !"Debug Info Version", i32 3}
!1 = distinct !DICompileUnit(language: DW_LANG_C_plus_plus, file: !2, emissionKind: FullDebug, retainedTypes: !3)
!2 = !DIFile(filename: "a.cpp", directory: "/")
!3 = !{!4, !5}
!4 = !DIDerivedType(tag: DW_TAG_typedef, name: "B", file: !2, baseType: !6)
!5 = !DICompositeType(tag: DW_TAG_class_type, name: "D", file: !2, size: 64, vtableHolder: !4, identifier: "_ZTS1D")
!6 = !DICompositeType(tag: DW_TAG_class_type, name: "Base", file: !2, size: 64, vtableHolder: !6, identifier: "_ZTS4Base")
;;; ATOM md/tuples-inline-in-several-entities
@g = global i32 0, !note !{!"g", i32 1}
@h = global i32 1, !note !{!"h", !{!"nested", !0}}
declare !note !{!"decl"} void @d()
define void @f() !note !{!"f", !{}} {
  %v = load i32, i32* @g, !range !{i32 0, i32 2}
  %w = load i32, i32* @h, !range !{i32 5, i32 9}, !note !{!{!{!"deep"}}, !0}
  ret void, !note !{!{!"a"}, !0}
}
define void @k() !note !{!"k"} {
  ret void, !note !{!{!DIExpression()}, !0, !{!DIExpression(DW_OP_deref)}}
}
!nm = !{!0, !1, !0}
!0 = !{!"numbered", !{!"inline-in-numbered", !{!1}}}
!1 = !{!{!DIExpression()}, !"tail"}
;;; ATOM md/di-macro-types-as-numbers
!llvm.module.flags = !{!0}
!llvm.dbg.cu = !{!1}
!0 = !{i32 2, !"Debug Info Version", i32 3}
!1 = distinct !DICompileUnit(language: DW_LANG_C99, file: !2, emissionKind: FullDebug, macros: !3)
!2 = !DIFile(filename: "a.c", directory: "/")
!3 = !{!4}
!4 = !DIMacroFile(type: 3, file: !2, nodes: !5)
!5 = !{!6, !7, !8}
!6 = !DIMacro(type: 1, line: 1, name: "A", value: "1")
!7 = !DIMacro(type: DW_MACINFO_undef, line: 2, name: "A")
!8 = !DIMacroFile(type: 200, line: 3, file: !2)
;;; ATOM md/global-dbg-attachment-of-a-bare-diglobalvariable
@g = global i32 0, !dbg !0
@h = global i32 0, !dbg !5
!llvm.module.flags = !{!3}
!llvm.dbg.cu = !{!2}
!0 = distinct !DIGlobalVariable(name: "g", scope: !2, file: !1, line: 1, type: !4, isLocal: false, isDefinition: true)
!1 = !DIFile(filename: "a.c", directory: "/")
!2 = distinct !DICompileUnit(language: DW_LANG_C99, file: !1, emissionKind: FullDebug)
!3 = !{i32 2, !"Debug Info Version", i32 3}
!4 = !DIBasicType(name: "int", size: 32, encoding: DW_ATE_signed)
!5 = !DIGlobalVariableExpression(var: !6, expr: !DIExpression())
!6 = distinct !DIGlobalVariable(name: "h", scope: !2, file: !1, line: 2, type: !4, isLocal: false, isDefinition: true)
;;; ATOM md/named-names-differing-in-letter-case
!Checks = !{!0}
!checks = !{!1}
!CHECKS = !{!2}
!cHECKS = !{!0, !2}
!a10 = !{!1}
!A9 = !{!1}
!0 = !{!"a"}
!1 = !{!"b"}
!2 = !{!"c"}
;;; ATOM md/ids-and-attribute-group-ids-beyond-31-bits
define void @f() #3000000000 {
  ret void, !tag !2147483648
}
define void @g() #2 !tag !4294967295 {
  ret void, !tag !1
}
attributes #3000000000 = { nounwind }
attributes #2 = { readnone }
!nm = !{!4000000000, !1}
!2147483648 = !{!"b"}
!4294967295 = !{!"d"}
!1 = !{!"a"}
!4000000000 = !{!"c"}
