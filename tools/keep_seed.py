#!/usr/bin/env python3
"""tools/keep_seed.py <seed-id> <property> <patch> <demo> <notes> <needs> <caught-by> <ran>
Stores a confirmed seeded change under /verif/seeded/<seed-id>/."""
import sys, os, json, shutil
sid, prop, patch, demo, notes, needs, caught, ran = sys.argv[1:9]
d = os.path.join('/verif/seeded', sid)
os.makedirs(d, exist_ok=True)
shutil.copy(patch, os.path.join(d, 'patch.diff'))
if os.path.isdir(demo):
    shutil.copytree(demo, os.path.join(d, 'demo'), dirs_exist_ok=True)
else:
    shutil.copy(demo, os.path.join(d, os.path.basename(demo).split('.',1)[1] if '.' in os.path.basename(demo) else os.path.basename(demo)))
if notes and os.path.exists(notes):
    shutil.copy(notes, os.path.join(d, 'notes.md'))
json.dump({"seed": sid, "breaks_property": prop, "needs_to_manifest": needs, "caught_by": caught, "what_i_ran": ran,
           "confirmed": "suite passes with the change; demonstration fails with it and passes without it (tools/confirm_seed.sh in a scratch worktree)"},
          open(os.path.join(d, 'meta.json'), 'w'), indent=1)
print('kept', d)
