#!/bin/bash
# tools/round_setup.sh <L1> <L2>: prepares a seeding round under /tmp/mut: one scratch worktree of /repo per
# property (/tmp/mut/Cxx), and per property /tmp/mut/out/Cxx/{PROPERTY.txt,USED.txt,TASK.txt} (the property text, the
# titles of the changes kept so far, and the task for the sub-agent with the letters of this round filled in).
# Nothing of /verif but the property text and those titles goes there. Afterwards: one sub-agent per property
# ("read /tmp/mut/out/Cxx/TASK.txt and do it"), then tools/try_seed_wt.sh Cxx <letter> [checks...] per change.
L1=${1:?letter}; L2=${2:?letter}
rm -rf /tmp/mut; mkdir -p /tmp/mut/out /tmp/mut/v /tmp/mut/res
git -C /repo worktree prune
for p in $(seq -w 1 20); do git -C /repo worktree add -q --detach /tmp/mut/C$p HEAD && mkdir -p /tmp/mut/out/C$p; done
python3 - <<'PY'
import json,os
for l in open('/verif/properties.jsonl'):
    p=json.loads(l)
    seeds=[d.split('-',2)[2].replace('-',' ') for d in sorted(os.listdir('/verif/seeded')) if d.startswith(p['id']+'-')]
    txt=f"Property {p['id']}: {p['title']}\n\nStatement: {p['statement']}\n\nQuantified over: {p['quantifier']['text']}\n\nWhy the existing tests cannot settle it: {p['why_tests_cant']}\n\nCode anchors: {json.dumps(p['anchors'])}\n"
    open(f"/tmp/mut/out/{p['id']}/PROPERTY.txt",'w').write(txt)
    open(f"/tmp/mut/out/{p['id']}/USED.txt",'w').write("\n".join("- "+s for s in seeds)+"\n")
PY
for p in $(seq -w 1 20); do sed "s/@ID@/C$p/g; s/@L1@/$L1/g; s/@L2@/$L2/g" /verif/tools/seed_agent_prompt.txt > /tmp/mut/out/C$p/TASK.txt; done
echo "prepared /tmp/mut for letters $L1 $L2; remove the worktrees afterwards: for p in \$(seq -w 1 20); do git -C /repo worktree remove --force /tmp/mut/C\$p; done"
