#!/bin/bash
# tools/sweep.sh <tier> <seed> [checks...]: runs the given checks (default all) in the current copy of /verif
# (VERIF_ROOT = this directory, so a `vp run` snapshot writes its own evidence/replay) and prints one line each.
tier=${1:-quick}; seed=${2:-1}; shift 2
cd "$(dirname "$0")/.."
export VERIF_ROOT=$PWD VERIF_SEED=$seed
mkdir -p evidence
[ $# -eq 0 ] && set -- C01 C02 C03 C04 C05 C06 C07 C08 C09 C10 C11 C12 C13 C14 C15 C16 C17 C18 C19 C20
for c in "$@"; do
  s=$(date +%s); out=$(./check $c $tier 2>&1); code=$?
  echo "$c tier=$tier seed=$seed exit=$code $(( $(date +%s)-s ))s viol=$(echo "$out" | grep -c '^VIOLATION') known=$(echo "$out" | grep -c '^KNOWN-FINDING') :: $(echo "$out" | tail -1 | cut -c1-200)"
  echo "$out" | grep -A3 '^VIOLATION' | cut -c1-400 | head -40
done
