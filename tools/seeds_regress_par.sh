#!/bin/bash
# tools/seeds_regress_par.sh [slots] [seed-dir-glob]: like seeds_regress.sh, but K seeds at a time, each in its own
# scratch worktree of /repo (at /repo's HEAD) and its own copy of /verif under /tmp/sr/<k> (removed at the end).
# /repo itself is not touched. Reports CAUGHT / MISSED / DOES-NOT-APPLY per seed.
K=${1:-4}; GLOB=${2:-C*}
export GOFLAGS=-mod=mod GOPROXY=off GOSUMDB=off GOTOOLCHAIN=local
cd /verif
if ! git -C /repo diff --quiet; then echo "/repo has uncommitted changes; refusing" >&2; exit 2; fi
rm -rf /tmp/sr; mkdir -p /tmp/sr
for k in $(seq 1 $K); do
  git -C /repo worktree add -q --detach /tmp/sr/$k/repo HEAD || exit 2
  mkdir -p /tmp/sr/$k/verif
  rsync -a --exclude .git --exclude replay --exclude evidence --exclude .bin --exclude seeded /verif/ /tmp/sr/$k/verif/
  mkdir -p /tmp/sr/$k/verif/evidence
  sed -i "s#=> /repo#=> /tmp/sr/$k/repo#" /tmp/sr/$k/verif/go.mod
done
one() { # slot seeddir
  k=$1; d=$2
  checks=$(python3 - "$d/meta.json" <<'PY'
import json,re,sys
m=json.load(open(sys.argv[1]))
own=m['breaks_property']
c=re.findall(r'(C\d\d) quick', m['caught_by'])
out=[]
for x in c:
    if x not in out: out.append(x)
print(" ".join(([own] if own in out else out[:1])))
PY
)
  R=/tmp/sr/$k/repo; V=/tmp/sr/$k/verif
  git -C $R checkout -q -- . ; git -C $R clean -fdq
  if ! git -C $R apply --check "$PWD/$d/patch.diff" 2>/dev/null; then echo "DOES-NOT-APPLY $d"; return; fi
  git -C $R apply "$PWD/$d/patch.diff"
  res=""
  for c in $checks; do
    res="$res$(cd $V && VERIF_ROOT=$V VERIF_REPO=$R ./check $c quick 2>&1)"
  done
  git -C $R checkout -q -- . ; git -C $R clean -fdq
  if echo "$res" | grep -q "^BUILD-FAILURE"; then echo "BUILD-FAILURE $d: $(echo "$res" | grep -m1 -A3 BUILD-FAILURE | tail -2 | tr '\n' ' ' | cut -c1-200)"; return; fi
  if echo "$res" | grep -q "^VIOLATION"; then echo "CAUGHT $d by $checks: $(echo "$res" | grep -m1 -A1 '^VIOLATION' | tail -1 | cut -c1-120)"; else echo "MISSED $d ($checks)"; fi
}
i=0
# SEEDLIST (a file with one seed directory per line) overrides the glob
for d in $( [ -n "${SEEDLIST:-}" ] && cat "$SEEDLIST" || ls -d seeded/$GLOB ); do
  [ -f "$d/meta.json" ] || continue
  i=$((i+1)); k=$(( (i-1) % K + 1 ))
  echo "$d" >> /tmp/sr/list.$k
done
for k in $(seq 1 $K); do
  ( [ -f /tmp/sr/list.$k ] && while read d; do one $k $d; done < /tmp/sr/list.$k ) &
done
wait
for k in $(seq 1 $K); do git -C /repo worktree remove --force /tmp/sr/$k/repo; done
git -C /repo worktree prune
rm -rf /tmp/sr
