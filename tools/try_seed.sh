#!/bin/bash
# tools/try_seed.sh <Cxx> <letter> <pkgdir> <run-regex> <checks...>   (round >= 3 layout: /tmp/mut/out/<Cxx>/<letter>.*)
# confirm in the scratch worktree /tmp/mut/<Cxx> (moved to /repo's HEAD first), then run the checks against the seed.
id=$1; v=$2; pkg=$3; run=$4; shift 4
o=/tmp/mut/out/$id
git -C /tmp/mut/$id checkout -q -- . ; git -C /tmp/mut/$id clean -fdq; git -C /tmp/mut/$id checkout -q --detach "$(git -C /repo rev-parse HEAD)"
echo "=== confirm $id $v"
demo=$o/$v.demo_test.go
[ -e "$demo" ] || demo=$(ls -d $o/$v.demo* | head -1)
/verif/tools/confirm_seed.sh /tmp/mut/$id $o/$v.patch.diff "$demo" "$pkg" "$run" 2>&1 | grep -v conda
echo "=== checks $id $v: $*"
/verif/tools/seedtest.sh $o/$v.patch.diff quick "$@" 2>&1 | grep -v conda | cut -c1-330 | grep -v "^--$" | head -${LINES_MAX:-12}
