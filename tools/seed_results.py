#!/usr/bin/env python3
"""tools/seed_results.py: regenerates /verif/seeded/RESULTS.md from the meta.json of every kept seed."""
import json, glob, os
rows = []
for d in sorted(glob.glob('/verif/seeded/C*-*')):
    m = json.load(open(os.path.join(d, 'meta.json')))
    files = sorted({l[6:].strip() for l in open(os.path.join(d, 'patch.diff')) if l.startswith('+++ b/')})
    rows.append((m['seed'], m['breaks_property'], files, m['needs_to_manifest'], m['caught_by']))
missed = [r for r in rows if 'MISSED' in r[4]]
out = ["# Seeded changes and which checks catch them", "",
       "Every entry is a change to llir/llvm made by a sub-agent that saw only the property text and a scratch worktree. "
       "Each one compiles, passes the repository's own test suite, and breaks the property; I confirmed that in a scratch worktree "
       "(`tools/confirm_seed.sh`: suite passes with the change, the demonstration fails with it and passes without it) before keeping it. "
       "`tools/seedtest.sh <patch> quick <checks>` applies the patch to /repo, runs the checks and reverts (evidence written meanwhile is discarded).", "",
       "%d seeds kept; %d were MISSED by the first version of the check of their own property and led to strengthening (marked below); all %d are now caught by the quick tier of the named checks." % (len(rows), len(missed), len(rows)), "",
       "| seed | property | files changed | needs, to manifest | caught by |", "|---|---|---|---|---|"]
for s, p, f, n, c in rows:
    out.append("| %s | %s | %s | %s | %s |" % (s, p, ", ".join(f), n.replace('|', '\\|'), c.replace('|', '\\|')))
out += ["", "## Seeds that were dropped", "",
        "- C01 round 5, mutation H (the shared true/false constants retyped by a named i1 type): the `fix:` commit 1a2641c rewrote the function it patched (named i1 literals no longer go through the shared constants); the patch no longer applies.",
        "- C13 round 4, mutation E (AssignIDs no longer fills the cached types under the function lock): its only trigger was the lazily rewritten alloca type, which the `fix:` commit e6d655a removed; its demonstration passes on the current tree.",
        "- C08 round 4, mutation F (declaration parameter numbers validated against the position in the list): made obsolete by the `fix:` commit b65575c, which validates them correctly; the patch no longer applies.",
        "- C10 round 2, mutation A (float printed in decimal whenever exact as a double): after the `fix:` commit 58a4c9d (exact decimal printing) the change no longer alters any printed literal's value under LLVM's reading; its demonstration passes, so it is not a violation any more and was not kept.",
        "- C18 round 1, mutation A (the DISPFlag printer stops walking at the first bit without a name, losing DISPFlagObjCDirect): after the `fix:` commit 1ad91e2 bits the walk does not name are printed as one integer, so the same change now prints `... | 2048`, which reads back as the same flag set; not a violation any more.",
        "- C20 round 3, mutation E (the parser places metadata definitions with small IDs directly at their index and fills the gaps with the others, which leaves Module.MetadataDefs out of ID order for sparse numbering): since the `fix:` commit 72ae51f the printer lists metadata definitions by ascending ID whatever the order of the slice, so the printed module is in order again; not a violation of C20 any more.",
        "- C04 round 4, mutation E (named types looked up under LocalIdent.Name() instead of getTypeName) and C11 round 5, mutation G (findBlock compares Name() of the blocks): both lived on Name() re-formatting number-like names (007, +7 -> \"7\"); since the `fix:` commit that makes Name() keep all-digit names verbatim and every other name as it is, Name() is injective and both changes are harmless (their demonstrations pass).",
        ]
open('/verif/seeded/RESULTS.md', 'w').write("\n".join(out) + "\n")
print("wrote RESULTS.md:", len(rows), "seeds,", len(missed), "initially missed")
