#!/bin/bash
# tools/seeds_regress.sh [seed-dir-glob]: applies every kept seed to /repo in turn (reverted straight afterwards),
# runs the quick tier of the checks its meta.json names as catching it, and reports CAUGHT / MISSED / DOES-NOT-APPLY.
cd /verif
for d in seeded/${1:-C*}; do
  [ -f "$d/meta.json" ] || continue
  checks=$(python3 - "$d/meta.json" <<'PY'
import json,re,sys
m=json.load(open(sys.argv[1]))
own=m['breaks_property']
c=re.findall(r'(C\d\d) quick', m['caught_by'])
out=[]
for x in c:
    if x not in out: out.append(x)
# the seed's own property first if it is among them, else all
print(" ".join(([own] if own in out else out[:1])))
PY
)
  res=$(tools/seedtest.sh "$PWD/$d/patch.diff" quick $checks 2>&1)
  if echo "$res" | grep -q "patch does not apply"; then echo "DOES-NOT-APPLY $d"; continue; fi
  if echo "$res" | grep -q "^VIOLATION"; then echo "CAUGHT $d by $checks: $(echo "$res" | grep -m1 -A1 '^VIOLATION' | tail -1 | cut -c1-120)"; else echo "MISSED $d ($checks)"; fi
done
