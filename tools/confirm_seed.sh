#!/bin/bash
# tools/confirm_seed.sh <worktree> <patch.diff> <demo_test.go> <pkgdir> <run-regex> [go test flags]
# Confirms a seeded change in a scratch worktree: suite passes with the change, demo fails with it and passes without.
set -u
tag=$(basename "$1")
wt="$1"; patch="$2"; demo="$3"; pkg="$4"; run="$5"; shift 5
export GOFLAGS=-mod=mod GOPROXY=off GOSUMDB=off GOTOOLCHAIN=local
cd "$wt" || exit 2
git checkout -q -- . && git clean -fdq
git apply "$patch" || { echo "PATCH DOES NOT APPLY"; exit 2; }
go build ./... || { echo "DOES NOT BUILD"; exit 2; }
if go test -vet=off -count=1 ./... >/tmp/confirm.$tag.suite.log 2>&1; then echo "suite with change: PASS"; else echo "suite with change: FAIL"; tail -5 /tmp/confirm.$tag.suite.log; fi
mkdir -p "$pkg"; cp "$demo" "$pkg/zz_seed_demo_test.go"
if go test -vet=off -count=1 "$@" -run "$run" "./$pkg/" >/tmp/confirm.$tag.with.log 2>&1; then echo "demo with change: PASS (unexpected)"; else echo "demo with change: FAIL (expected)"; grep -m3 -- "--- FAIL\|DATA RACE\|panic" /tmp/confirm.$tag.with.log; fi
git checkout -q -- .; mkdir -p "$pkg"; cp "$demo" "$pkg/zz_seed_demo_test.go"
if go test -vet=off -count=1 "$@" -run "$run" "./$pkg/" >/tmp/confirm.$tag.without.log 2>&1; then echo "demo without change: PASS (expected)"; else echo "demo without change: FAIL (unexpected)"; tail -5 /tmp/confirm.$tag.without.log; fi
git clean -fdq
rm -f /tmp/confirm.$tag.*.log
