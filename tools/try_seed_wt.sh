#!/bin/bash
# tools/try_seed_wt.sh <Cxx> <letter> [checks...]   (round >= 9 layout: /tmp/mut/out/<Cxx>/<letter>.{patch.diff,demo_test.go,info.json})
# Confirms the change in the scratch worktree /tmp/mut/<Cxx> (suite passes with it, demo fails with it and passes
# without), then runs the checks (default: the property's own, quick) from a scratch copy of /verif against that
# worktree with the change applied. /repo itself is not touched, so several of these can run side by side.
id=$1; v=$2; shift 2
[ $# -eq 0 ] && set -- $id
export GOFLAGS=-mod=mod GOPROXY=off GOSUMDB=off GOTOOLCHAIN=local
o=/tmp/mut/out/$id; R=/tmp/mut/$id; V=/tmp/mut/v/$id
pkg=$(python3 -c "import json;print(json.load(open('$o/$v.info.json'))['pkg'])")
run=$(python3 -c "import json;print(json.load(open('$o/$v.info.json'))['run'])")
flags=$(python3 -c "import json;print(json.load(open('$o/$v.info.json')).get('flags',''))")
git -C $R checkout -q -- . ; git -C $R clean -fdq; git -C $R checkout -q --detach "$(git -C /repo rev-parse HEAD)"
echo "=== confirm $id $v ($(python3 -c "import json;print(json.load(open('$o/$v.info.json'))['title'])"))"
/verif/tools/confirm_seed.sh $R $o/$v.patch.diff $o/$v.demo_test.go "$pkg" "$run" $flags 2>&1 | grep -v conda
git -C $R checkout -q -- . ; git -C $R clean -fdq
git -C $R apply $o/$v.patch.diff || exit 2
mkdir -p $V
rsync -a --delete --exclude .git --exclude replay --exclude evidence --exclude seeded /verif/ $V/
mkdir -p $V/evidence; sed -i "s#=> /repo#=> $R#" $V/go.mod
for c in "$@"; do
  out=$(cd $V && VERIF_ROOT=$V VERIF_REPO=$R VERIF_TIER_OVERRIDE= ./check $c ${TIER:-quick} 2>&1); code=$?
  echo "== $c exit=$code"
  echo "$out" | grep -A2 "^VIOLATION\|^BUILD-FAILURE" | grep -v "^--$" | cut -c1-330 | head -${LINES_MAX:-9}
  echo "$out" | tail -1 | cut -c1-200
done
git -C $R checkout -q -- . ; git -C $R clean -fdq
