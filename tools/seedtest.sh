#!/bin/bash
# tools/seedtest.sh <patch.diff> <tier> <Cxx> [Cxx...]
# Applies a seeded change to /repo, runs the given checks, and undoes the change
# straight afterwards (also on failure). Prints per check: exit code and the
# VIOLATION lines.
set -u
patch="$1"; tier="$2"; shift 2
cd /repo || exit 2
if ! git diff --quiet; then echo "/repo has uncommitted changes; refusing" >&2; exit 2; fi
if ! git apply --check "$patch" 2>/dev/null; then echo "patch does not apply: $patch" >&2; exit 2; fi
git apply "$patch"
# evidence written while the seed is applied describes a mutated tree: keep the real one
evbak=$(mktemp -d /tmp/seedtest.ev.XXXXXX); cp -a /verif/evidence/. "$evbak"/
trap 'git -C /repo checkout -- . ; git -C /repo clean -fdq; rm -rf /verif/evidence; mkdir -p /verif/evidence; cp -a "$evbak"/. /verif/evidence/; rm -rf "$evbak"' EXIT
export GOFLAGS=-mod=mod GOPROXY=off GOSUMDB=off GOTOOLCHAIN=local
if ! (cd /repo && go build ./... ) ; then echo "SEED DOES NOT BUILD"; exit 2; fi
for c in "$@"; do
  out=$(cd /verif && ./check "$c" "$tier" 2>&1); code=$?
  echo "== $c exit=$code"
  echo "$out" | grep -A2 "^VIOLATION" | head -12
  echo "$out" | tail -1
done
