#!/usr/bin/env python3
"""Validate MANIFEST.json and evidence/*.json against the schemas in /root/.vp."""
import json, sys, glob
import jsonschema
ok = True
def check(path, schema_path):
    global ok
    try:
        jsonschema.validate(json.load(open(path)), json.load(open(schema_path)))
        print("valid  ", path)
    except Exception as e:
        ok = False
        print("INVALID", path, str(e).splitlines()[0])
check("/verif/MANIFEST.json", "/root/.vp/MANIFEST.schema.json") if glob.glob("/verif/MANIFEST.json") else None
for p in sorted(glob.glob("/verif/evidence/*.json")):
    check(p, "/root/.vp/EVIDENCE.schema.json")
sys.exit(0 if ok else 1)
