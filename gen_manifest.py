#!/usr/bin/env python3
"""Regenerates MANIFEST.json from the table below (single source of truth for
the interface; run after adding a check)."""
import json, subprocess

HOOK_COMMITS = ["db387c4"]

# id -> (level category, technique, level text, level note, design ref)
CHECKS = {
 "C19": ("fault_enumeration",
         "fault-injecting io.Writer monitor: WriteTo is run against a writer failing at every byte offset; (n, err, bytes, writes-after-failure) judged against String()",
         "Every module of the corpus is written to instrumented writers that fail (sentinel error / short write) after exactly k bytes, for every k in [0,len(String())] on modules up to 6000 bytes and 400 sampled offsets beyond; the oracle compares the returned count, error identity, delivered prefix and post-failure writes with the contract. Exhaustive over offsets per module, not over modules.",
         "Trusts Go's fmt to call Write once per print call; modules come from the corpus (atoms, repo testdata, llvm-stress), so printer paths outside it are not driven.",
         "DESIGN.md §4 C19"),
}

NOT_YET = {}

def main():
    props = [json.loads(l) for l in open("/verif/properties.jsonl")]
    checks = []
    na = []
    for p in props:
        pid = p["id"]
        if pid in CHECKS:
            cat, tech, text, note, ref = CHECKS[pid]
            checks.append({
                "property_id": pid,
                "quick_cmd": "./check %s quick" % pid,
                "thorough_cmd": "./check %s thorough" % pid,
                "evidence_file": "/verif/evidence/%s.json" % pid,
                "replay_cmd_template": "./check %s --replay {path}" % pid,
                "engine": "vcheck",
                "level_claimed": {"category": cat, "text": text, "design_ref": ref},
                "level_note": note,
                "technique": tech,
            })
        else:
            na.append({"property_id": pid, "reason": NOT_YET.get(pid, "monitor designed in DESIGN.md §4 but not built yet in this revision; no claim is made")})
    man = {
        "version": 1,
        "setup_cmd": "./setup.sh",
        "hooks": {
            "guard": "verif",
            "enable": "go build -tags verif (plus -race for C12/C13) of /verif/cmd/vcheck; /verif/go.mod replaces github.com/llir/llvm with /repo, so every ./check rebuilds from /repo's current working tree",
            "baseline_off_cmd": "cd /repo && GOFLAGS=-mod=mod GOPROXY=off GOSUMDB=off GOTOOLCHAIN=local go test -json -vet=off -count=1 -timeout 25m ./...",
            "source_commits": HOOK_COMMITS,
            "add_only": True,
        },
        "engines": [{
            "name": "vcheck",
            "path": "/verif/cmd/vcheck",
            "serves_properties": sorted(CHECKS),
            "kind_free_text": "runtime monitors over executions of the real llir/llvm code: child-process workers, reference-model oracles (LLVM 14 tools, math/big, reflection walkers), fault-injecting writers, Go race detector",
        }],
        "checks": checks,
        "not_applicable": na,
        "notes": "All checks: exit 0 held / 1 VIOLATION line / 2 nothing observed (tool or build failure). VERIF_SEED selects the PRNG streams; case lists depend on seed and tier only. KNOWN_FINDINGS.txt lists genuine defects not repaired (open:) and repaired ones (fixed:).",
    }
    json.dump(man, open("/verif/MANIFEST.json", "w"), indent=1)
    print("wrote MANIFEST.json with", len(checks), "checks,", len(na), "not claimed")

main()
