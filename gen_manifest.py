#!/usr/bin/env python3
"""Regenerates MANIFEST.json from the table below (single source of truth for
the interface; run after adding a check)."""
import json, subprocess

HOOK_COMMITS = ["db387c4"]

# id -> (level category, technique, level text, level note, design ref)
CHECKS = {
 "C01": ("translation_validation",
         "translation validation with LLVM 14 as referee: llvm-as|llvm-dis reads the input and the printed output of every program; readings compared in canonical form (metadata renumbered, definitions sorted)",
         "Programs: atom catalogue (every instruction/terminator/constant/type/attribute/metadata form), repo testdata, llvm-stress, clang corpus (C/C++, -O0..-O2, -g, x86_64/i686/msvc/aarch64+sve), generated modules (mgen), opt variants and LLVM-validated respellings. Unrepresentable constructs must yield errors. Evidence lists the constructs seen in faithfully translated modules.",
         "LLVM 14.0.6 tools are the trusted reference; constructs LLVM normalises on both sides are invisible here (covered by C02/C04/C17). Inputs with s0x literals that LLVM and the type-width rule read differently are not judged.",
         "DESIGN.md §4 C01"),
 "C03": ("exploration",
         "constructor-matrix monitor (print, llvm-as, re-parse, structural comparison) plus execution monitor: PRNG construction programs run under lli and compared with a reference evaluator of the same construction calls",
         "All 66 instruction/terminator constructors and the constant/expression constructors over the operand-shape set, named and unnamed results; module-level builders; 160 (quick) / 4000 (thorough) executed programs over integer, floating-point, memory, vector, aggregate and control-flow constructors.",
         "Reference evaluator: uint64/float32/float64 semantics for widths<=64; programs avoid undefined behaviour by construction; non-executable constructs are validity+re-parse only.",
         "DESIGN.md §4 C03"),
 "C05": ("fault_enumeration",
         "fault injection on the token stream: every reference site redirected to an undefined identifier and every definition duplicated, one at a time; LLVM's rejection gates the fault; outcome of asm.ParseString judged",
         "All sites of every atom and of generated modules (all sites when small, up to 60/400 PRNG sites otherwise) plus 27 handwritten fault forms; outcome must be (nil, error) without panic.",
         "Only faults LLVM also rejects are judged; the undefined-attribute-group exception is thereby built in.",
         "DESIGN.md §4 C05"),
 "C06": ("exploration",
         "reference-model monitor validated by LLVM: generated modules use every result at the type the generator's typing model predicts (llvm-as checks it); parser type, IR-recomputed type and re-parsed type compared with the prediction; constant-expression grid",
         "250 (quick) / 6000 (thorough) generated modules covering all instruction kinds over int/fp/pointer/vector (fixed and scalable)/aggregate shapes, plus a grid of every constant-expression kind; kind x shape matrix in the evidence.",
         "The typing model is trusted only on LLVM-accepted modules.",
         "DESIGN.md §4 C06"),
 "C07": ("exploration",
         "reference-model monitor validated by LLVM over a getelementptr grid; five computations (parser instruction, parser constant expression, alias pre-resolution, ir.NewGetElementPtr, constant.NewGetElementPtr) plus direct gep.ResultType calls compared with the prediction",
         "10 source element types x 6 bases x index lists of length 0-5 with all index forms (i1..i128, non-constant, zeroinitializer/splat/non-splat/undef/poison vectors, scalable, inrange, constant expressions); 1600 (quick) / 32000 (thorough) geps.",
         "Prediction counts only when llvm-as accepted the use of the result at the predicted type.",
         "DESIGN.md §4 C07"),
 "C08": ("exploration",
         "bounded-exhaustive shape enumeration with a numbering model validated by LLVM; bindings observed through sinks, IDs compared, renumbering idempotence, canonical comparison of the printed text",
         "All function shapes of length<=3/4 over 12 items x parameter shapes x {explicit, implicit, mixed} numbering, all module shapes of length<=3/4 over named/unnamed {global, alias, ifunc, declaration, definition}, plus PRNG longer shapes.",
         "LLVM 14 accepts only explicit numbers for unnamed globals.",
         "DESIGN.md §4 C08"),
 "C10": ("exploration",
         "LLVM as bit oracle: llvm-as|llvm-dis printing of `K L` versus `K Ident(parse L)`; library re-parse compared by value, sign and NaN flag",
         "All 65536 half patterns; structured boundary sets and PRNG patterns for float, double, x86_fp80, fp128, ppc_fp128 in hex and decimal spellings (122k literals quick, 244k thorough).",
         "LLVM's printer is canonical per kind. Open findings: NaN payloads (all kinds), x86_fp80 unnormals, ppc_fp128 pairs (KNOWN_FINDINGS.txt).",
         "DESIGN.md §4 C10"),
 "C11": ("exploration",
         "round-trip monitor over byte strings x 24 grammar positions: API -> print -> library parser (bytes, name-vs-ID) and LLVM (acceptance, re-print decoded); enc.* driven directly through the export hook",
         "All single bytes, all strings of length<=3/4 over a hostile alphabet, numeric look-alikes, PRNG strings; 46k (position, string) pairs quick.",
         "Strings LLVM forbids in a position are filtered by bisection on LLVM's verdict; all-digit type names are IDs by the API's convention.",
         "DESIGN.md §4 C11"),
 "C17": ("exploration",
         "structural-invariant monitor with a side table: payload strings identify the intended target of every metadata reference; reference allocator for IDs; canonical comparison by LLVM; identity census on clang -g graphs",
         "300 (quick) / 8000 (thorough) generated graphs (sparse IDs, cycles, forward refs, inline nodes, attachments, repeated named metadata) on the text side and the API side, plus the clang -g corpus and metadata atoms; conservation of `!N` references (text against graph edges, input and printed side), of `distinct`, and per kind of the nodes spelled out inline.",
         "Specialised nodes are covered by the corpus and atoms (identity census), tuples by the generated graphs.",
         "DESIGN.md §4 C17"),
 "C02": ("exploration",
         "differential self-comparison over executions: print(parse x) re-parsed and re-printed, object graphs compared by a reflection serialiser (identity-bearing objects in bijection, the rest by value)",
         "Every accepted input of the corpus (atoms, repo testdata, llvm-stress, generated modules) and five respellings of each (hex ints, hex floats, quoted names, comments, shuffled definitions) is printed, re-parsed and re-printed; the second print must equal the first byte for byte and the two object graphs must serialise identically.",
         "Structural identity is judged in the printed state (lazy ID assignment has run on both sides); caches (Successors) and mutexes are skipped; nil and empty slices alike.",
         "DESIGN.md §4 C02"),
 "C04": ("exploration",
         "structural-invariant monitor: reflection census over the object graph returned by the parser at the quiescent point (after Parse returns)",
         "The identity census walks every reachable reference slot of every accepted module and checks pointer identity with the listed definition (module lists, enclosing function, blockaddress function, TypeDefs by name) and parent links; counts of slots checked by kind, forward and cyclic references are reported. Conservation between input and printed text catches bindings to another object of the right kind: blockaddress, type-name, global-name and metadata tokens per module, uses of every local per function, string and empty array constants typed by a name against the TypeDefs object.",
         "Sees what is reachable through exported fields; binding to a different definition of the right kind is left to C01's canonical comparison.",
         "DESIGN.md §4 C04"),
 "C09": ("exploration",
         "reference-model monitor: math/big arithmetic and LLVM 14 (llvm-as|llvm-dis) judge the value of every literal read by NewIntFromString / asm.ParseString and every literal chosen by Ident",
         "All values of i1..i12 (quick) / i1..i16 (thorough) in every accepted spelling, plus boundary, low-entropy (hex/decimal switch-over) and PRNG values for 20 widths up to i4099: printed literal re-read equals the value; every spelling denotes the big-integer value; LLVM cross-checks each literal batch.",
         "s0x is judged as two's complement at the type width (the property's wording); LLVM's top-active-bit rule is consulted only where both coincide.",
         "DESIGN.md §4 C09"),
 "C12": ("exploration",
         "differential monitor under the Go race detector: repeated, cross-process, cross-entry-point and concurrent parses compared by text and structural digest; Visit hooks record map-iteration orders actually seen; canary over exported singletons",
         "Each (input, fresh process) pair: R sequential parses, five entry points, parses after unrelated activity, 8-32 concurrent parses of different inputs and a crowded repeat (16 goroutines on GOMAXPROCS 2, three parses each, the translator yielding inside its loops) must agree on accept/reject, String() and structural digest; digests also agree across 3-8 processes; hook events show that the translator's map loops ran in >=2 different orders for the counted inputs. Cold-start cases: the first parses of a fresh process are 16 concurrent ones, compared with sequential parses made afterwards.",
         "Map orders are observed, not forced; error messages are not compared, only accept/reject.",
         "DESIGN.md §4 C12"),
 "C13": ("exploration",
         "Go race detector over concurrent printers of one shared module with PRNG yields at hook sites, plus twin-text oracle (every returned text must equal a sequential text)",
         "Three scenarios (whole-module printers from both states; all operations on an already printed module; all operations on a never-printed module), N in {2,4,16}, GOMAXPROCS in {2,16}; rounds count only if >=2 printers were active at once; race reports keyed by entry-point pair and writing function. Every list of every module has spare capacity (appends by a printer land in shared storage); printers that never return are decided by the goroutine dump (all waiting for locks).",
         "Reports exist only for interleavings that occurred; Succs() is outside the property's operation set. Open findings: per-function/per-global printers racing with the FIRST whole-module print (KNOWN_FINDINGS.txt).",
         "DESIGN.md §4 C13"),
 "C14": ("exploration",
         "differential history monitor: the same edit history replayed on fresh modules with and without observer calls; final texts compared, panics caught",
         "PRNG edit histories (6-40 steps over add/insert/remove/rename/set-terminator/metadata) x observer placements (every position x 11 observer kinds for short histories; PRNG subsets for long ones) plus eight minimal witness histories of the renumbering family.",
         "The reference is the history without observers; histories use i32 arithmetic, memory and branch instructions.",
         "DESIGN.md §4 C14"),
 "C15": ("exploration",
         "reflection monitor on live instructions: operand-field addresses vs Operands(), sentinel writes through every slot judged on LLString(), replace-all-uses judged on the printed function, Succs() vs target fields before and after retargeting",
         "Every instruction and terminator of every function of the accepted corpus (all 66 kinds occur in the atoms): completeness, liveness of each slot, replace-all-uses of up to 12 values per function, successor views incl. retargeting through a slot.",
         "Arguments with parameter attributes (*ir.Arg) and metadata-wrapped arguments are treated as transparent wrappers; uselistorder directives are not instructions.",
         "DESIGN.md §4 C15"),
 "C16": ("exploration",
         "reference-model monitor: Equal over generated type universes judged against an independent canonical-descriptor identity; neighbours differing in one attribute; parse(print(t))",
         "24 (quick) / 400 (thorough) universes of 40-140 types in LLVM's data model: all ordered pairs for agreement with the reference identity, reflexivity, symmetry; all triples for transitivity; every one-attribute neighbour unequal; Equal(t, parse(print t)) and parsed-vs-constructed pairs.",
         "Termination observed through the worker supervisor (a diverging Equal kills the worker or trips the watchdog).",
         "DESIGN.md §4 C16"),
 "C18": ("exploration",
         "round-trip monitor over the enumerated domain read from the current source with go/types: String()/FromString, keyword clashes, Type(N) fall-backs, host-module round trips, flag-set round trips, numeric forms",
         "All constants of the 35 enum types + FloatKind; each keyword in its host construct printed, re-parsed and offered to llvm-as; all AllocKind and DISPFlag subsets, DIFlag subsets up to size 2/3 plus PRNG subsets crossed with the 2-bit sub-fields; cc 1..1023 and raw DWARF tags.",
         "The domain comes from the tree's own source; hosts LLVM rejects are not judged by LLVM.",
         "DESIGN.md §4 C18"),
 "C19": ("fault_enumeration",
         "fault-injecting io.Writer monitor: WriteTo is run against a writer failing at every byte offset; (n, err, bytes, writes-after-failure) judged against String()",
         "Every module of the corpus is written to instrumented writers that fail (sentinel error, short write with and without an error, errors of real destinations, errors of uncomparable types, writers with WriteString/ReadFrom) after exactly k bytes, for every k in [0,len(String())] on modules up to 6000 bytes and 400 sampled offsets beyond; the oracle compares the returned count, error identity, delivered prefix and post-failure writes with the contract; a WriteTo that never returns (waiting for a lock nobody can release) is decided by the state of the process. Exhaustive over offsets per module, not over modules.",
         "Trusts Go's fmt to call Write once per print call; modules come from the corpus (atoms, repo testdata, llvm-stress), so printer paths outside it are not driven.",
         "DESIGN.md §4 C19"),
 "C20": ("exploration",
         "axiom monitor over enumerated strings (natsort.Less through the export hook, math/big for digit runs) and permutation-invariance monitor on re-parsed permuted inputs",
         "All ordered pairs of all strings of length<=4 (quick) / 5 (thorough) over {0,1,9,a,b,-} plus PRNG strings: irreflexive, asymmetric, total, numeric on single-run differences; all triples of a 320/1200-string subset; natsort.Strings sorted permutation; every corpus module re-parsed under all (<=5 entities) or sampled permutations of its definitions must print like the original with only the textual-order lists rearranged.",
         "source_filename/target/module asm lines are kept in place (LLVM itself orders them); modules with unnamed globals, repeated definitions or uselistorder are not permuted.",
         "DESIGN.md §4 C20"),
}

NOT_YET = {}

def main():
    props = [json.loads(l) for l in open("/verif/properties.jsonl")]
    checks = []
    na = []
    for p in props:
        pid = p["id"]
        if pid in CHECKS:
            cat, tech, text, note, ref = CHECKS[pid]
            checks.append({
                "property_id": pid,
                "quick_cmd": "./check %s quick" % pid,
                "thorough_cmd": "./check %s thorough" % pid,
                "evidence_file": "/verif/evidence/%s.json" % pid,
                "replay_cmd_template": "./check %s --replay {path}" % pid,
                "engine": "vcheck",
                "level_claimed": {"category": cat, "text": text, "design_ref": ref},
                "level_note": note,
                "technique": tech,
            })
        else:
            na.append({"property_id": pid, "reason": NOT_YET.get(pid, "monitor designed in DESIGN.md §4 but not built yet in this revision; no claim is made")})
    man = {
        "version": 1,
        "setup_cmd": "./setup.sh",
        "hooks": {
            "guard": "verif",
            "enable": "go build -tags verif (plus -race for C12/C13) of /verif/cmd/vcheck; /verif/go.mod replaces github.com/llir/llvm with /repo, so every ./check rebuilds from /repo's current working tree",
            "baseline_off_cmd": "cd /repo && GOFLAGS=-mod=mod GOPROXY=off GOSUMDB=off GOTOOLCHAIN=local go test -json -vet=off -count=1 -timeout 25m ./...",
            "source_commits": HOOK_COMMITS,
            "add_only": True,
        },
        "engines": [{
            "name": "vcheck",
            "path": "/verif/cmd/vcheck",
            "serves_properties": sorted(CHECKS),
            "kind_free_text": "runtime monitors over executions of the real llir/llvm code: child-process workers, reference-model oracles (LLVM 14 tools, math/big, reflection walkers), fault-injecting writers, Go race detector",
        }],
        "checks": checks,
        "not_applicable": na,
        "notes": "All checks: exit 0 held / 1 VIOLATION line / 2 nothing observed (tool or build failure). VERIF_SEED selects the PRNG streams; case lists depend on seed and tier only. KNOWN_FINDINGS.txt lists genuine defects not repaired (open:) and repaired ones (fixed:).",
    }
    json.dump(man, open("/verif/MANIFEST.json", "w"), indent=1)
    print("wrote MANIFEST.json with", len(checks), "checks,", len(na), "not claimed")

main()
