#!/bin/bash
# Offline setup: warm the Go build cache for both monitor binaries and check
# that the LLVM 14 reference tools answer.
set -u
cd "$(dirname "$0")"
export GOFLAGS=-mod=mod GOPROXY=off GOSUMDB=off GOTOOLCHAIN=local
cp -f /repo/go.sum go.sum
mkdir -p .bin evidence
go build -tags verif -o .bin/vcheck ./cmd/vcheck || exit 1
go build -tags verif -race -o .bin/vcheck-race ./cmd/vcheck || exit 1
for t in llvm-as-14 llvm-dis-14 lli-14 opt-14 llvm-stress-14 clang-14; do
  $t --version >/dev/null 2>&1 || { echo "missing tool $t" >&2; exit 1; }
done
echo setup ok
