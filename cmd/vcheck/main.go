// Command vcheck is the driver of the runtime monitors: one sub-command per
// property (see internal/fw for the parent/worker protocol).
package main

import (
	"os"

	"verif/internal/fw"
	"verif/props"
)

func main() {
	if len(os.Args) > 1 && os.Args[1] == "--dev" {
		props.Dev(os.Args[2:])
		return
	}
	fw.Main()
}
